"""
kernels2.py — WHOLE-KERNEL translator: Numba kernels of /repo (loops, array stores, calls of other
kernels) → Lean definitions `Sketchnu.Full.<name>` in `lean/Model/Generated/Full*.lean`.

Where `kernels.py` extracts the decision logic of one loop body over scalar stand-ins, this translator
renders an entire kernel:

  * arrays are total functions (`a[i, j]` ↦ `a i j`), a store is `Rt.set2 a i j v` (`Model/Rt.lean`);
  * `for i in range(n)` / `prange(n)` is `Rt.loop n init (fun i st => …)` over the tuple of variables the
    body assigns (and that are live before the loop), iterations in source order;
  * `if/elif/else` assigns the tuple of variables either branch assigns; an `if` whose body ends in `return`
    (top level of the function only) becomes `if c then <result> else <rest of the function>`;
  * a call of another translated kernel is a call of its Lean definition; the callee's mutated array
    parameters come back as results and are re-bound under the caller's names;
  * a kernel returns `(return value, mutated arrays in parameter order)`;
  * a `bytes` key is abstract (`Rt.KeyOps`): `fasthash64(key, s)` ↦ `ko.H key s`, `len(key)` ↦ `ko.klen key`,
    `key[i:j]` ↦ `ko.slice key i j`; the heavy-hitter key-array prelude must read exactly as expected and
    becomes `ko.arr`;
  * integer casts are dropped (the model is over `Nat` with the code's own guards — trusted, see DESIGN §0.6);
    float parameters are dropped and may only flow into declared *extern* calls (`_log_counter`), which become
    function parameters of the generated definition.

Anything outside this subset raises TranslateError: "the translator can no longer tie this kernel to the model".
`lean/Properties/Full*.lean` proves every generated definition equal to the hand-written model on all inputs.
"""
import ast
import os

from translate import TranslateError, REPO, GEN, _parse, _write_if_changed

INT_CASTS = {"uint8", "uint16", "uint32", "uint64", "int", "int64"}
BINOPS = {ast.Add: "+", ast.Sub: "-", ast.Mult: "*", ast.FloorDiv: "/", ast.Mod: "%", ast.RShift: ">>>", ast.LShift: "<<<", ast.BitAnd: "&&&"}
CMPOPS = {ast.Eq: "=", ast.NotEq: "≠", ast.Lt: "<", ast.LtE: "≤", ast.Gt: ">", ast.GtE: "≥"}
LEAN_TY = {"nat": "Nat", "a1": "Nat → Nat", "a2": "Nat → Nat → Nat", "a3": "Nat → Nat → B", "key": "K", "b": "B", "bool": "Bool"}

# the heavy-hitter prelude that builds the zero-padded key array (must read exactly so; it is rendered abstractly)
HH_ADD_PRELUDE = [
    "key_len = np.uint64(len(key))",
    "if key_len == max_key_len:\n    key_array = np.frombuffer(key, uint8)\nelif key_len < max_key_len:\n    key_array = np.zeros(max_key_len, uint8)\n"
    "    key_array[:key_len] = np.frombuffer(key, uint8)\nelse:\n    key = key[:max_key_len]\n    key_len = max_key_len\n    key_array = np.frombuffer(key, uint8)",
]
HH_MAX_PRELUDE = [
    "if key_len == max_key_len:\n    key_array = np.frombuffer(key, uint8)\nelse:\n    key_array = np.zeros(max_key_len, uint8)\n    key_array[:key_len] = np.frombuffer(key, uint8)",
]


def _ptype(node):
    """type expression of an njit signature → our type tag"""
    if isinstance(node, ast.Name):
        if node.id in INT_CASTS:
            return "nat"
        if node.id == "float64":
            return "f"
    if isinstance(node, ast.Subscript):
        elt = node.value.id if isinstance(node.value, ast.Name) else None
        dims = len(node.slice.elts) if isinstance(node.slice, ast.Tuple) else 1
        if elt == "float64":
            return "af"
        if elt in INT_CASTS:
            return {1: "a1", 2: "a2", 3: "a3"}[dims]
    if isinstance(node, ast.Call) and ast.unparse(node.func).endswith("Bytes"):
        return "key"
    raise TranslateError(f"unsupported parameter type `{ast.unparse(node)}`")


def _rtype(node):
    s = ast.unparse(node)
    if s.endswith("void"):
        return []
    if isinstance(node, ast.Name):
        return ["f" if node.id == "float64" else "nat"]
    if isinstance(node, ast.Call) and ast.unparse(node.func).endswith("Tuple"):
        return [("f" if ast.unparse(e) == "float64" else "nat") for e in node.args[0].elts]
    raise TranslateError(f"unsupported return type `{s}`")


class Fn:
    def __init__(self, module, node, lean):
        self.module, self.node, self.lean = module, node, lean
        dec = [d for d in node.decorator_list if isinstance(d, ast.Call) and ast.unparse(d.func) == "njit"]
        if len(dec) != 1 or not dec[0].args or not isinstance(dec[0].args[0], ast.Call):
            raise TranslateError(f"{node.name}: no explicit @njit(signature)")
        sig = dec[0].args[0]
        names = [a.arg for a in node.args.args]
        if len(names) != len(sig.args):
            raise TranslateError(f"{node.name}: signature has {len(sig.args)} parameter types for {len(names)} parameters")
        self.params = [(n, _ptype(t)) for n, t in zip(names, sig.args)]
        self.ret = _rtype(sig.func)
        self.mutated = []  # parameter names, in parameter order
        self.uses_ko = False
        self.externs = []  # extern parameter names used (in order)

    def ptype(self, name):
        for n, t in self.params:
            if n == name:
                return t
        return None


class Tr:
    """translation of one function body"""

    def __init__(self, fn, fns, spec):
        self.fn, self.fns, self.spec = fn, fns, spec
        self.n = 0
        self.btypes = {}  # types of variables first defined inside both branches of an `if`

    def fresh(self, base="t"):
        self.n += 1
        return f"{base}_{self.n}"

    # ------------------------------------------------------------------ expressions
    def idx(self, sub, env):
        """(array name, [index expressions]) of a subscript load/store"""
        if not isinstance(sub.value, ast.Name):
            raise TranslateError(f"unsupported subscript `{ast.unparse(sub)}`")
        a = sub.value.id
        sl = sub.slice
        elts = list(sl.elts) if isinstance(sl, ast.Tuple) else [sl]
        return a, elts

    def expr(self, n, env):
        if isinstance(n, ast.Constant) and isinstance(n.value, int) and not isinstance(n.value, bool):
            return str(n.value)
        if isinstance(n, ast.Name):
            if n.id not in env:
                raise TranslateError(f"{self.fn.node.name}: name `{n.id}` is not defined here")
            if env[n.id] == "af" or (env[n.id] == "f" and not self.spec.get("floats")):
                raise TranslateError(f"{self.fn.node.name}: float value `{n.id}` used outside an extern call")
            return n.id
        if isinstance(n, ast.Subscript):
            a, elts = self.idx(n, env)
            if a not in env:
                raise TranslateError(f"unknown array `{a}`")
            t = env[a]
            if t == "key":
                if len(elts) != 1 or not isinstance(elts[0], ast.Slice) or elts[0].step is not None:
                    raise TranslateError(f"unsupported key subscript `{ast.unparse(n)}`")
                lo = self.expr(elts[0].lower, env) if elts[0].lower is not None else "0"
                if elts[0].upper is None:
                    raise TranslateError(f"open-ended key slice `{ast.unparse(n)}`")
                self.fn.uses_ko = True
                return f"(ko.slice {a} {lo} {self.expr(elts[0].upper, env)})"
            want = {"a1": 1, "a2": 2, "a3": 2}.get(t)
            if want is None or len(elts) != want or any(isinstance(e, ast.Slice) for e in elts):
                raise TranslateError(f"unsupported subscript `{ast.unparse(n)}` of a value of type {t}")
            return "(" + a + " " + " ".join(self.atom(e, env) for e in elts) + ")"
        if isinstance(n, ast.Call):
            name = n.func.id if isinstance(n.func, ast.Name) else (n.func.attr if isinstance(n.func, ast.Attribute) else None)
            if name in INT_CASTS and len(n.args) == 1:
                return self.expr(n.args[0], env)
            fx = self.spec.get("floats", {}).get(ast.unparse(n.func))
            if fx is not None:
                # declared float-world call: becomes a parameter of the generated definition, applied to the listed argument positions
                pname, argpos, _ty = fx
                if pname not in self.fn.externs:
                    self.fn.externs.append(pname)
                return "(" + " ".join([pname] + [self.atom(n.args[i], env) for i in argpos]) + ")" if argpos else pname
            if name == "float64" and len(n.args) == 1 and self.spec.get("floats"):
                inner = n.args[0]
                if self.etype(inner, env) == "f":
                    return self.expr(inner, env)
                return f"(ofNat {self.atom(inner, env)})"
            if name in ("min", "max") and len(n.args) == 2:
                return f"({name} {self.atom(n.args[0], env)} {self.atom(n.args[1], env)})"
            if name == "len" and len(n.args) == 1 and isinstance(n.args[0], ast.Name) and env.get(n.args[0].id) == "key":
                self.fn.uses_ko = True
                return f"(ko.klen {n.args[0].id})"
            if name == "fasthash64" and len(n.args) == 2:
                self.fn.uses_ko = True
                return f"(ko.H {self.atom(n.args[0], env)} {self.atom(n.args[1], env)})"
            if name in self.fns:
                callee = self.fns[name]
                if callee.mutated or len(callee.ret) != 1:
                    raise TranslateError(f"call of `{name}` in expression position, but it mutates arrays or returns a tuple")
                return "(" + self.call(callee, n, env) + ")"
            raise TranslateError(f"unsupported call `{ast.unparse(n)}`")
        if isinstance(n, ast.BinOp) and type(n.op) in BINOPS:
            lt, rt = self.etype(n.left, env), self.etype(n.right, env)
            if "f" in (lt, rt):
                if not isinstance(n.op, (ast.Add, ast.Sub, ast.Mult)):
                    raise TranslateError(f"unsupported float operation `{ast.unparse(n)}`")
                l = self.expr(n.left, env) if lt == "f" else f"(ofNat {self.atom(n.left, env)})"
                r = self.expr(n.right, env) if rt == "f" else f"(ofNat {self.atom(n.right, env)})"
                return f"({l} {BINOPS[type(n.op)]} {r})"
            return f"({self.expr(n.left, env)} {BINOPS[type(n.op)]} {self.expr(n.right, env)})"
        raise TranslateError(f"unsupported expression `{ast.unparse(n)}`")

    def atom(self, n, env):
        e = self.expr(n, env)
        return e if (e.isidentifier() or e.isdigit() or e.startswith("(")) else f"({e})"

    def etype(self, n, env):
        """type of an expression that may be assigned to a fresh name"""
        if isinstance(n, ast.Name):
            return env.get(n.id, "nat")
        if isinstance(n, ast.Subscript):
            a, elts = self.idx(n, env)
            t = env.get(a)
            if t == "key":
                return "key"
            if t == "a3":
                return "b"
            return "nat"
        if isinstance(n, (ast.BoolOp, ast.Compare)) or (isinstance(n, ast.UnaryOp) and isinstance(n.op, ast.Not)):
            return "bool"
        if isinstance(n, ast.Call) and ast.unparse(n.func) == "np.all":
            return "bool"
        if self.spec.get("floats"):
            if isinstance(n, ast.Call):
                fx = self.spec["floats"].get(ast.unparse(n.func))
                if fx is not None:
                    return fx[2]
                if ast.unparse(n.func) == "float64":
                    return "f"
            if isinstance(n, ast.BinOp) and "f" in (self.etype(n.left, env), self.etype(n.right, env)):
                return "f"
        return "nat"

    def call(self, callee, n, env):
        """Lean application of a translated kernel (without outer parentheses)"""
        if len(n.args) != len(callee.params) or n.keywords:
            raise TranslateError(f"call `{ast.unparse(n)}`: arity")
        parts = [f"Full.{callee.lean}"]
        if callee.uses_ko:
            self.fn.uses_ko = True
            parts.append("ko")
        for x in callee.externs:
            if x not in self.fn.externs:
                self.fn.externs.append(x)
            parts.append(x)
        for (pn, pt), a in zip(callee.params, n.args):
            if pt in ("f", "af"):
                continue  # float parameters are dropped
            parts.append(self.atom(a, env))
        return " ".join(parts)

    def test(self, n, env):
        if isinstance(n, ast.BoolOp):
            op = " ∧ " if isinstance(n.op, ast.And) else " ∨ "
            return "(" + op.join(self.test(v, env) for v in n.values) + ")"
        if isinstance(n, ast.UnaryOp) and isinstance(n.op, ast.Not):
            return f"(¬ {self.test(n.operand, env)})"
        if isinstance(n, ast.Name) and env.get(n.id) == "bool":
            return f"({n.id} = true)"
        if isinstance(n, ast.Call) and ast.unparse(n.func) == "np.all" and len(n.args) == 1 and isinstance(n.args[0], ast.Compare) \
                and len(n.args[0].ops) == 1 and isinstance(n.args[0].ops[0], ast.Eq):
            c = n.args[0]
            l, r = c.left, c.comparators[0]
            if self.etype(l, env) != "b" or self.etype(r, env) != "b":
                raise TranslateError(f"np.all over something that is not a key-byte array: `{ast.unparse(n)}`")
            return f"({self.expr(l, env)} = {self.expr(r, env)})"
        if isinstance(n, ast.Compare) and len(n.ops) == 1 and type(n.ops[0]) in CMPOPS:
            l, r = n.left, n.comparators[0]
            lt, rt = self.etype(l, env), self.etype(r, env)
            le = self.expr(l, env) if (lt == rt or lt == "f") else f"(ofNat {self.atom(l, env)})"
            re_ = self.expr(r, env) if (lt == rt or rt == "f") else f"(ofNat {self.atom(r, env)})"
            return f"({le} {CMPOPS[type(n.ops[0])]} {re_})"
        raise TranslateError(f"unsupported test `{ast.unparse(n)}`")

    # ------------------------------------------------------------------ statements
    @staticmethod
    def assigned(stmts):
        """names (variables or arrays) a statement list may assign, in first-assignment order"""
        out = []

        def add(x):
            if x not in out:
                out.append(x)

        def tgt(t):
            if isinstance(t, ast.Name):
                add(t.id)
            elif isinstance(t, ast.Subscript) and isinstance(t.value, ast.Name):
                add(t.value.id)
            elif isinstance(t, ast.Tuple):
                for e in t.elts:
                    tgt(e)

        def walk(ss):
            for s in ss:
                if isinstance(s, ast.Assign):
                    for t in s.targets:
                        tgt(t)
                    if isinstance(s.value, ast.Call):
                        call(s.value)
                elif isinstance(s, ast.AugAssign):
                    tgt(s.target)
                elif isinstance(s, ast.Expr) and isinstance(s.value, ast.Call):
                    call(s.value)
                elif isinstance(s, ast.If):
                    walk(s.body)
                    walk(s.orelse)
                elif isinstance(s, ast.For):
                    walk(s.body)

        fns = Tr._fns

        def call(c):
            name = c.func.id if isinstance(c.func, ast.Name) else None
            if name in fns:
                callee = fns[name]
                for (pn, pt), a in zip(callee.params, c.args):
                    if pn in callee.mutated and isinstance(a, ast.Name):
                        add(a.id)

        walk(stmts)
        return out

    @staticmethod
    def definitely(stmts):
        """names assigned on EVERY path through a statement list (no loops considered)"""
        out = set()
        for s_ in stmts:
            if isinstance(s_, ast.Assign):
                for t in s_.targets:
                    if isinstance(t, ast.Name):
                        out.add(t.id)
                    elif isinstance(t, ast.Tuple):
                        out |= {e.id for e in t.elts if isinstance(e, ast.Name)}
            elif isinstance(s_, ast.If):
                out |= Tr.definitely(s_.body) & Tr.definitely(s_.orelse)
        return out

    def tup(self, names):
        return names[0] if len(names) == 1 else "(" + ", ".join(names) + ")"

    def bind(self, names, src, ind):
        """`let` lines that bind `names` to the components of tuple expression variable `src`"""
        if len(names) == 1:
            return f"{ind}let {names[0]} := {src}\n"
        out = ""
        for i, nm in enumerate(names):
            proj = ".2" * i + (".1" if i < len(names) - 1 else "")
            out += f"{ind}let {nm} := {src}{proj}\n"
        return out

    def result(self, value_exprs, env):
        """the function's result tuple: return values then mutated arrays"""
        vals = list(value_exprs) + list(self.fn.mutated)
        if not vals:
            raise TranslateError(f"{self.fn.node.name}: returns nothing and mutates nothing")
        return self.tup(vals)

    def ret_values(self, s, env):
        if s.value is None or (isinstance(s.value, ast.Constant) and s.value.value is None):
            if self.fn.ret:
                raise TranslateError(f"{self.fn.node.name}: bare return in a function with a return type")
            return []
        if isinstance(s.value, ast.Tuple):
            vals = [self.expr(e, env) for e in s.value.elts]
        else:
            vals = [self.expr(s.value, env)]
        if len(vals) != len(self.fn.ret):
            raise TranslateError(f"{self.fn.node.name}: return arity")
        return vals

    def ends_in_return(self, stmts):
        return bool(stmts) and isinstance(stmts[-1], ast.Return)

    def contains_return(self, stmts):
        return any(isinstance(x, ast.Return) for s in stmts for x in ast.walk(s))

    def block(self, stmts, env, ind, outs=None):
        """Lean term (multi-line, `let` chain) for a statement list.
        outs = None: function level — the value is the function result (falls off the end ⇒ void result).
        outs = [names]: inner block — the value is the tuple of `outs` after the statements."""
        env = dict(env)
        code = ""
        i = 0
        while i < len(stmts):
            s = stmts[i]
            rest = stmts[i + 1:]
            if isinstance(s, ast.Expr) and isinstance(s.value, ast.Constant):
                i += 1
                continue  # docstring
            if isinstance(s, ast.Return):
                if outs is not None:
                    raise TranslateError(f"{self.fn.node.name}: `return` inside a loop or nested block")
                return code + ind + self.result(self.ret_values(s, env), env) + "\n"
            if isinstance(s, ast.Assign) and len(s.targets) == 1:
                t = s.targets[0]
                v = s.value
                callee = self.fns.get(v.func.id) if isinstance(v, ast.Call) and isinstance(v.func, ast.Name) else None
                ext = self.spec.get("externs", {}).get(v.func.id) if isinstance(v, ast.Call) and isinstance(v.func, ast.Name) else None
                if ext is not None:
                    # extern call: a function parameter of the generated definition
                    pname, argpos, nret = ext
                    if pname not in self.fn.externs:
                        self.fn.externs.append(pname)
                    args = " ".join(self.atom(v.args[p], env) for p in argpos)
                    tg = [e.id for e in t.elts] if isinstance(t, ast.Tuple) else [t.id]
                    if len(tg) != nret:
                        raise TranslateError(f"extern `{v.func.id}`: expected {nret} results")
                    tmp = self.fresh()
                    code += f"{ind}let {tmp} := {pname} {args}\n" + self.bind(tg, tmp, ind)
                    for x in tg:
                        env[x] = "nat"
                elif callee is not None and (callee.mutated or isinstance(t, ast.Tuple)):
                    tg = [e.id for e in t.elts] if isinstance(t, ast.Tuple) else [t.id]
                    if len(tg) != len(callee.ret):
                        raise TranslateError(f"call `{ast.unparse(v)}`: {len(callee.ret)} results for {len(tg)} targets")
                    muts = self.mut_args(callee, v)
                    tmp = self.fresh()
                    code += f"{ind}let {tmp} := {self.call(callee, v, env)}\n" + self.bind(tg + muts, tmp, ind)
                    for x in tg:
                        env[x] = "nat"
                elif isinstance(t, ast.Name):
                    ty = self.etype(v, env)
                    if ty == "bool":
                        code += f"{ind}let {t.id} := decide {self.test(v, env)}\n"
                    else:
                        code += f"{ind}let {t.id} := {self.expr(v, env)}\n"
                    env[t.id] = ty
                elif isinstance(t, ast.Subscript):
                    code += self.store(t, self.expr(v, env), env, ind)
                else:
                    raise TranslateError(f"unsupported assignment `{ast.unparse(s)}`")
            elif isinstance(s, ast.AugAssign) and type(s.op) in BINOPS:
                op = BINOPS[type(s.op)]
                if isinstance(s.target, ast.Name):
                    code += f"{ind}let {s.target.id} := {self.expr(s.target, env)} {op} {self.atom(s.value, env)}\n"
                elif isinstance(s.target, ast.Subscript):
                    load = ast.Subscript(value=s.target.value, slice=s.target.slice, ctx=ast.Load())
                    code += self.store(s.target, f"{self.expr(load, env)} {op} {self.atom(s.value, env)}", env, ind)
                else:
                    raise TranslateError(f"unsupported `{ast.unparse(s)}`")
            elif isinstance(s, ast.Expr) and isinstance(s.value, ast.Call) and isinstance(s.value.func, ast.Name) and s.value.func.id in self.fns:
                callee = self.fns[s.value.func.id]
                muts = self.mut_args(callee, s.value)
                if not muts:
                    raise TranslateError(f"call `{ast.unparse(s.value)}` has no effect")
                tmp = self.fresh()
                code += f"{ind}let {tmp} := {self.call(callee, s.value, env)}\n"
                names = [self.fresh("r") for _ in callee.ret] + muts
                code += self.bind(names, tmp, ind)
            elif isinstance(s, ast.If):
                if self.contains_return([s]):
                    if outs is not None:
                        raise TranslateError(f"{self.fn.node.name}: `return` inside a loop or nested block")
                    c = self.test(s.test, env)
                    a = self.block(list(s.body) + ([] if self.ends_in_return(s.body) else rest), env, ind + "  ")
                    b = self.block(list(s.orelse) + rest, env, ind + "  ")
                    return code + f"{ind}if {c} then\n{a}{ind}else\n{b}"
                a_set, b_set = self.assigned(s.body), self.assigned(s.orelse)
                both = self.definitely(s.body) & self.definitely(s.orelse)
                mods = [x for x in a_set + [y for y in b_set if y not in a_set] if x in env or x in both]
                if not mods:
                    raise TranslateError(f"`if {ast.unparse(s.test)}` has no effect on live variables")
                c = self.test(s.test, env)
                for x in mods:
                    if x not in env and x not in both:
                        raise TranslateError(f"variable `{x}` is defined in one branch only")
                a = self.block(s.body, env, ind + "    ", outs=mods)
                b = self.block(s.orelse, env, ind + "    ", outs=mods)
                tmp = self.fresh()
                code += f"{ind}let {tmp} :=\n{ind}  if {c} then\n{a}{ind}  else\n{b}" + self.bind(mods, tmp, ind)
                for x in mods:
                    if x not in env:
                        env[x] = self.btypes.get(x, "nat")
            elif isinstance(s, ast.For):
                it = s.iter
                if not (isinstance(s.target, ast.Name) and isinstance(it, ast.Call) and isinstance(it.func, ast.Name)
                        and it.func.id in ("range", "prange") and len(it.args) == 1 and not s.orelse):
                    raise TranslateError(f"unsupported loop `for {ast.unparse(s.target)} in {ast.unparse(it)}`")
                if self.contains_return(s.body):
                    raise TranslateError(f"{self.fn.node.name}: `return` inside a loop")
                mods = [x for x in self.assigned(s.body) if x in env]
                if not mods:
                    raise TranslateError("loop without effect on live variables")
                v = s.target.id
                env2 = dict(env)
                env2[v] = "nat"
                st = self.fresh("st")
                body = self.bind(mods, st, ind + "    ") + self.block(s.body, env2, ind + "    ", outs=mods)
                tmp = self.fresh()
                code += f"{ind}let {tmp} := Rt.loop {self.atom(it.args[0], env)} {self.tup(mods)} (fun {v} {st} =>\n{body}{ind}  )\n" + self.bind(mods, tmp, ind)
            else:
                raise TranslateError(f"unsupported statement `{ast.unparse(s)[:70]}`")
            i += 1
        if outs is None:
            if self.fn.ret:
                raise TranslateError(f"{self.fn.node.name}: may fall off the end without returning a value")
            return code + ind + self.result([], env) + "\n"
        for x in outs:
            if x not in env:
                raise TranslateError(f"variable `{x}` is not defined at the end of a branch")
            self.btypes[x] = env[x]
        return code + ind + self.tup(outs) + "\n"

    def mut_args(self, callee, call):
        muts = []
        for (pn, pt), a in zip(callee.params, call.args):
            if pn in callee.mutated:
                if not isinstance(a, ast.Name):
                    raise TranslateError(f"call `{ast.unparse(call)}`: mutated argument is not a plain name")
                muts.append(a.id)
        return muts

    def store(self, t, val, env, ind):
        a, elts = self.idx(t, env)
        ty = env.get(a)
        if ty == "a1" and len(elts) == 1 and not isinstance(elts[0], ast.Slice):
            return f"{ind}let {a} := Rt.set1 {a} {self.atom(elts[0], env)} ({val})\n"
        if ty == "a2" and len(elts) == 2 and not any(isinstance(e, ast.Slice) for e in elts):
            return f"{ind}let {a} := Rt.set2 {a} {self.atom(elts[0], env)} {self.atom(elts[1], env)} ({val})\n"
        if ty == "a3" and len(elts) in (2, 3) and not any(isinstance(e, ast.Slice) for e in elts[:2]) \
                and (len(elts) == 2 or (isinstance(elts[2], ast.Slice) and elts[2].lower is None and elts[2].upper is None)):
            return f"{ind}let {a} := Rt.set2 {a} {self.atom(elts[0], env)} {self.atom(elts[1], env)} ({val})\n"
        raise TranslateError(f"unsupported store `{ast.unparse(t)}` into a value of type {ty}")


# ------------------------------------------------------------------------------------------------ the kernels

# (module, function, lean name, spec)
KERNELS2 = [
    ("hyperloglog", "_n_leading_zeros64", "n_leading_zeros64", {}),
    ("hyperloglog", "_add", "hll_add", {"drop_return_none": True}),
    ("hyperloglog", "_add_ngram", "hll_add_ngram", {}),
    ("hyperloglog", "_merge", "hll_merge", {}),
    ("hyperloglog", "_query", "hll_query", {"floats": {"np.count_nonzero": ("count_nonzero", [], "nat"), "_linear_counting": ("linear_counting", [0, 1], "f"),
                                                       "_estimation_function": ("estimation_function", [], "f"), "np.interp": ("interp", [0], "f")},
                                            "keep_float_params": False}),
    ("countmin", "_query_linear", "query_linear", {}),
    ("countmin", "_add_linear", "add_linear", {}),
    ("countmin", "_add_ngram_linear", "add_ngram_linear", {}),
    ("countmin", "_merge_linear", "merge_linear", {}),
    ("countmin", "_query_log16", "query_log16", {}),
    ("countmin", "_add_log16", "add_log16", {"externs": {"_log_counter": ("log_counter", [0, 5, 6], 2)}}),
    ("countmin", "_add_ngram_log16", "add_ngram_log16", {}),
    ("countmin", "_query_log8", "query_log8", {}),
    ("countmin", "_add_log8", "add_log8", {"externs": {"_log_counter": ("log_counter", [0, 5, 6], 2)}}),
    ("countmin", "_add_ngram_log8", "add_ngram_log8", {}),
    ("countmin", "_merge_log16", "merge_log16", {"cell": {"name": "merge_cell", "target": "cms", "reads": ["cms", "other_cms"]}}),
    ("countmin", "_merge_log8", "merge_log8", {"cell": {"name": "merge_cell", "target": "cms", "reads": ["cms", "other_cms"]}}),
    ("heavyhitters", "_add", "hh_add", {"prelude": HH_ADD_PRELUDE,
                                         "prelude_lets": ["key := ko.slice key 0 max_key_len", "key_len := min (ko.klen key) max_key_len", "key_array := ko.arr key max_key_len"],
                                         "prelude_env": {"key_len": "nat", "key_array": "b"}}),
    ("heavyhitters", "_add_ngram", "hh_add_ngram", {}),
    ("heavyhitters", "_merge", "hh_merge", {}),
    ("heavyhitters", "_max_count", "hh_max_count", {"prelude": HH_MAX_PRELUDE, "prelude_lets": ["key_array := ko.arr key max_key_len"],
                                                    "prelude_env": {"key_array": "b"}}),
]

GROUPS2 = {
    "FullHll": ["n_leading_zeros64", "hll_add", "hll_add_ngram", "hll_merge", "hll_query"],
    "FullLin": ["query_linear", "add_linear", "add_ngram_linear", "merge_linear"],
    "FullLog": ["query_log16", "add_log16", "add_ngram_log16", "query_log8", "add_log8", "add_ngram_log8", "merge_log16", "merge_log8"],
    "FullHH": ["hh_add", "hh_add_ngram", "hh_merge", "hh_max_count"],
}

EXTERN_TY = {"merge_cell": "Nat → Nat → Nat", "log_counter": "Nat → Nat → Nat → Nat × Nat", "count_nonzero": "Nat", "linear_counting": "Nat → Nat → α", "estimation_function": "α", "interp": "α → α"}
EXTERN_DOC = {"merge_cell": "`merge_cell a b` stands for the body of the innermost loop as a function of the two cell values `cms[row, col]`, `other_cms[row, col]` "
                            "(checked on the source: the body reads the arrays only at `[row, col]`, stores only into `cms[row, col]`, assigns no parameter and no name used "
                            "outside it, calls only pure helpers; its float arithmetic is mirrored by `mergeLogCellF` and compared bit for bit by the correspondence)",
              "count_nonzero": "`count_nonzero` = `np.count_nonzero(registers)`", "linear_counting": "`linear_counting m n_zero` = `_linear_counting(m, n_zero)`",
              "estimation_function": "`estimation_function` = `_estimation_function(registers, m, alpha)`", "interp": "`interp x` = `np.interp(x, raw_estimate, bias_data)`",
              "log_counter": "`log_counter counter rand_ptr value` stands for `_log_counter(counter, num_reserved, uint_maxval, base, rand_nums, rand_ptr, value)` "
                             "(float arithmetic inside; its loop body is translated separately as `Src.logCounterStep`)"}


CELL_PURE_CALLS = {"_counter2value", "np.log", "uint16", "uint8", "uint32", "uint64", "float64", "np.uint16", "np.uint8", "np.float64", "min", "max"}


def _cell_abstract(node, cell):
    """`spec["cell"]`: replace the body of the innermost loop by `cms[row, col] = merge_cell(cms[row, col], other_cms[row, col])`
    after checking that this is what the body IS, as far as the arrays are concerned (a function of the two cells and of loop-invariant scalars)."""
    name, target, reads = cell["name"], cell["target"], cell["reads"]
    fors = [n for n in ast.walk(node) if isinstance(n, ast.For)]
    inner = [f for f in fors if not any(isinstance(x, ast.For) for b in f.body for x in ast.walk(b))]
    if len(inner) != 1:
        raise TranslateError(f"{node.name}: expected exactly one innermost loop, found {len(inner)}")
    inner = inner[0]
    outer = [f for f in fors if f is not inner and any(x is inner for x in ast.walk(f))]
    if len(outer) != 1 or not isinstance(inner.target, ast.Name) or not isinstance(outer[0].target, ast.Name):
        raise TranslateError(f"{node.name}: the cell loop is not a two-level `for row … for col …` nest")
    row, col = outer[0].target.id, inner.target.id
    if outer[0].body != [inner] and [b for b in outer[0].body if not (isinstance(b, ast.Expr) and isinstance(b.value, ast.Constant))] != [inner]:
        raise TranslateError(f"{node.name}: the row loop contains statements besides the column loop")
    params = {a.arg for a in node.args.args}
    body_nodes = [x for b in inner.body for x in ast.walk(b)]
    for x in body_nodes:
        if isinstance(x, (ast.Return, ast.Break, ast.Continue, ast.While, ast.Raise, ast.Try, ast.With, ast.Global, ast.Nonlocal, ast.Lambda, ast.Yield, ast.Await, ast.Delete, ast.Starred)):
            raise TranslateError(f"{node.name}: `{type(x).__name__}` inside the cell body")
        if isinstance(x, ast.Subscript):
            idx = x.slice.elts if isinstance(x.slice, ast.Tuple) else [x.slice]
            ok = isinstance(x.value, ast.Name) and len(idx) == 2 and all(isinstance(e, ast.Name) for e in idx) and [e.id for e in idx] == [row, col]
            if not ok:
                raise TranslateError(f"{node.name}: the cell body touches `{ast.unparse(x)}` — not the cell `[{row}, {col}]`")
            if isinstance(x.ctx, ast.Store) and x.value.id != target:
                raise TranslateError(f"{node.name}: the cell body stores into `{x.value.id}`")
            if isinstance(x.ctx, ast.Load) and x.value.id not in reads:
                raise TranslateError(f"{node.name}: the cell body reads array `{x.value.id}`")
        if isinstance(x, ast.Call) and ast.unparse(x.func) not in CELL_PURE_CALLS:
            raise TranslateError(f"{node.name}: the cell body calls `{ast.unparse(x.func)}`")
        if isinstance(x, ast.Call) and x.keywords:
            raise TranslateError(f"{node.name}: keyword arguments in the cell body")
    local = {x.id for x in body_nodes if isinstance(x, ast.Name) and isinstance(x.ctx, ast.Store)}
    if local & (params | {row, col}):
        raise TranslateError(f"{node.name}: the cell body assigns {sorted(local & (params | {row, col}))}")
    arrays = set(reads) | {target}
    for x in body_nodes:
        if isinstance(x, ast.Name) and isinstance(x.ctx, ast.Load) and x.id in arrays:
            pass  # only legal under a [row, col] subscript: every other use is rejected next
    for b in inner.body:
        for x in ast.walk(b):
            for ch in ast.iter_child_nodes(x):
                if isinstance(ch, ast.Name) and ch.id in arrays and not (isinstance(x, ast.Subscript) and ch is x.value):
                    raise TranslateError(f"{node.name}: array `{ch.id}` used whole inside the cell body")
    outside = [x for x in ast.walk(node) if isinstance(x, ast.Name) and x.id in local and not any(x is y for y in body_nodes)]
    if outside:
        raise TranslateError(f"{node.name}: `{outside[0].id}`, assigned in the cell body, is used outside it")
    # a loop-carried local: read in the body before any assignment on some path — approximate soundly: every local must be assigned (at top level or in
    # both branches) before its first textual read
    seen = set()
    def walk_stmts(stmts, defined):
        for st in stmts:
            if isinstance(st, ast.If):
                for x in ast.walk(st.test):
                    if isinstance(x, ast.Name) and x.id in local and x.id not in defined:
                        raise TranslateError(f"{node.name}: local `{x.id}` may be read before it is assigned in this iteration")
                d1 = walk_stmts(st.body, set(defined))
                d2 = walk_stmts(st.orelse, set(defined))
                defined |= (d1 & d2)
            else:
                val = st.value if isinstance(st, (ast.Assign, ast.AugAssign, ast.Expr)) else None
                if val is None:
                    raise TranslateError(f"{node.name}: unsupported statement in the cell body: `{ast.unparse(st)[:60]}`")
                reads_ = [x for x in ast.walk(val) if isinstance(x, ast.Name)]
                if isinstance(st, ast.AugAssign):
                    reads_ += [x for x in ast.walk(st.target) if isinstance(x, ast.Name) and not isinstance(st.target, ast.Subscript)]
                for x in reads_:
                    if x.id in local and x.id not in defined:
                        raise TranslateError(f"{node.name}: local `{x.id}` may be read before it is assigned in this iteration")
                tg = st.targets if isinstance(st, ast.Assign) else ([st.target] if isinstance(st, ast.AugAssign) else [])
                for t in tg:
                    if isinstance(t, ast.Name):
                        defined.add(t.id)
                    elif not isinstance(t, ast.Subscript):
                        raise TranslateError(f"{node.name}: unsupported assignment target in the cell body")
        return defined
    walk_stmts([b for b in inner.body if not (isinstance(b, ast.Expr) and isinstance(b.value, ast.Constant))], set())
    src = f"{target}[{row}, {col}] = {name}(" + ", ".join(f"{a}[{row}, {col}]" for a in reads) + ")"
    tmp = "cell_new"
    new = ast.parse(f"{tmp} = {name}(" + ", ".join(f"{a}[{row}, {col}]" for a in reads) + f")\n{target}[{row}, {col}] = {tmp}").body
    inner.body = new
    return src


def _mutated_of(fn, fns):
    """array parameters a function stores into, directly or through a callee"""
    arrs = {n for n, t in fn.params if t in ("a1", "a2", "a3")}
    hit = set()
    for n in ast.walk(fn.node):
        tgts = []
        if isinstance(n, ast.Assign):
            tgts = n.targets
        elif isinstance(n, ast.AugAssign):
            tgts = [n.target]
        for t in tgts:
            if isinstance(t, ast.Subscript) and isinstance(t.value, ast.Name) and t.value.id in arrs:
                hit.add(t.value.id)
        if isinstance(n, ast.Call) and isinstance(n.func, ast.Name) and n.func.id in fns and fns[n.func.id] is not fn:
            callee = fns[n.func.id]
            for (pn, pt), a in zip(callee.params, n.args):
                if pn in callee.mutated and isinstance(a, ast.Name) and a.id in arrs:
                    hit.add(a.id)
    return [n for n, _ in fn.params if n in hit]


def translate_all(_collect=None):
    """returns ({lean name: text}, [errors]); `_collect` (a dict) receives {module: {python name: Fn}} for methods.py"""
    out, errors = {}, []
    trees = {}
    for mod in ("hyperloglog", "countmin", "heavyhitters"):
        trees[mod] = _parse(os.path.join(REPO, "sketchnu", mod + ".py"))[1]
    by_mod = _collect if _collect is not None else {}  # module -> {python name: Fn}
    for mod, pyname, lean, spec in KERNELS2:
        fns = by_mod.setdefault(mod, {})
        try:
            node = None
            for n in trees[mod].body:
                if isinstance(n, ast.FunctionDef) and n.name == pyname:
                    node = n
            if node is None:
                raise TranslateError(f"function {pyname} not found in {mod}.py")
            if "cell" in spec:
                import copy
                node = copy.deepcopy(node)
                _cell_abstract(node, spec["cell"])
                spec = dict(spec, externs={spec["cell"]["name"]: (spec["cell"]["name"], list(range(len(spec["cell"]["reads"]))), 1)})
            fn = Fn(mod, node, lean)
            fn.mutated = _mutated_of(fn, fns)
            Tr._fns = fns
            tr = Tr(fn, fns, spec)
            stmts = list(node.body)
            if stmts and isinstance(stmts[0], ast.Expr) and isinstance(stmts[0].value, ast.Constant):
                stmts = stmts[1:]
            env = {n: t for n, t in fn.params}
            pre = ""
            if "prelude" in spec:
                got = [ast.unparse(s) for s in stmts[:len(spec["prelude"])]]
                if got != spec["prelude"]:
                    raise TranslateError(f"{pyname}: the key-array prelude no longer reads as expected: {got!r}")
                stmts = stmts[len(spec["prelude"]):]
                fn.uses_ko = True
                for l in spec["prelude_lets"]:
                    pre += f"  let {l}\n"
                env.update(spec["prelude_env"])
            if spec.get("drop_return_none") and stmts and isinstance(stmts[-1], ast.Return) and ast.unparse(stmts[-1]) == "return None":
                stmts = stmts[:-1]
            body = pre + tr.block(stmts, env, "  ")
            args = ""
            if spec.get("floats"):
                args += " {α : Type} [LT α] [LE α] [Sub α] [DecidableLT α] [DecidableLE α] (ofNat : Nat → α)"
            if fn.uses_ko:
                args += " {K B : Type} [DecidableEq B] (ko : Rt.KeyOps K B)"
            elif any(t == "a3" for _, t in fn.params):
                args += " {B : Type} [DecidableEq B]"
            for x in fn.externs:
                args += f" ({x} : {EXTERN_TY[x]})"
            used = {x.id for x in ast.walk(node) if isinstance(x, ast.Name)}
            for n, t in fn.params:
                if t in ("f", "af"):
                    continue
                if spec.get("floats") and t in ("a1", "a2", "a3"):
                    continue  # arrays of a float kernel are only read through the declared float-world calls
                args += f" ({n} : {LEAN_TY[t]})"
            res = ", ".join(["the return value"] * (1 if len(fn.ret) == 1 else 0) + [f"`{m}`" for m in fn.mutated]) or "the return values"
            if len(fn.ret) > 1:
                res = "the returned tuple" + (", " + ", ".join(f"`{m}`" for m in fn.mutated) if fn.mutated else "")
            doc = f"`{mod}.{pyname}` — the whole kernel; result: ({res})"
            for x in fn.externs:
                doc += f"; {EXTERN_DOC[x]}"
            out[lean] = f"/-- {doc} -/\ndef {lean}{args} :=\n{body}"
            fns[pyname] = fn
        except TranslateError as e:
            errors.append(f"{lean}: {e}")
            out[lean] = f"-- TRANSLATION FAILED for {lean} ({mod}.{pyname}): {e}\n-- (no definition emitted: the obligations in Properties/Full*.lean that mention it no longer check)\n"
    return out, errors


def run():
    defs, errors = translate_all()
    changed = []
    prev = None
    for g, names in GROUPS2.items():
        L = ["/- GENERATED by harness/kernels2.py from the current /repo source — do not edit.",
             "   Whole Numba kernels (loops, array stores, calls) over arrays-as-functions; see Model/Rt.lean. -/",
             "import Model.Rt"]
        if prev and g != "FullHll":
            pass
        L += ["namespace Sketchnu.Full", "open Sketchnu", ""]
        for n in names:
            L.append(defs[n])
        L.append("end Sketchnu.Full")
        if _write_if_changed(os.path.join(GEN, g + ".lean"), "\n".join(L) + "\n"):
            changed.append(g + ".lean")
    return changed, errors


if __name__ == "__main__":
    d, e = translate_all()
    for k, v in d.items():
        print(v)
    print(e)
