#!/bin/bash
# usage: try_mutant.sh <patch.diff> <tier> <pid>...   — apply to /repo, run the checks, ALWAYS restore.
# One trial at a time (lock); evidence written while a change is applied is never kept: the committed evidence is restored.
patch=$1; tier=$2; shift 2
exec 9>/tmp/try_mutant.lock
flock 9
cd /repo || exit 9
if [ -n "$(git status --porcelain)" ]; then echo "/repo not clean"; exit 9; fi
git apply "$patch" || { echo "patch does not apply"; exit 9; }
trap 'git -C /repo checkout -- . ; (cd /verif && python3 harness/translate.py >/dev/null 2>&1; git checkout -q -- evidence/)' EXIT
cd /verif
for pid in "$@"; do
  start=$(date +%s)
  out=$(/venv/bin/python harness/check.py $pid --tier $tier 2>/tmp/try_mutant_err.log | grep -E "VIOLATION|KNOWN-FINDING")
  rc=${PIPESTATUS[0]}
  echo "== $pid rc=$rc $(( $(date +%s) - start ))s :: $out"
  grep -E "^\[check\] C" /tmp/try_mutant_err.log | tail -1
done
